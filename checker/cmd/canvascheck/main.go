// canvascheck decides structural clauses of the properties in /verif/properties.jsonl from
// /repo's current source (AST, types, SSA, call graph). It never runs library code.
package main

import (
	"encoding/json"
	"flag"
	"fmt"
	"os"
	"path/filepath"
	"runtime/debug"
	"sort"
	"strconv"
	"time"

	"canvascheck/internal/core"
	"canvascheck/internal/rules"
)

func verifDir() string {
	if d := os.Getenv("VERIF_DIR"); d != "" {
		return d
	}
	return "/verif"
}

func main() {
	if len(os.Args) < 2 {
		fmt.Fprintln(os.Stderr, "usage: canvascheck check <Cxx> [--tier quick|thorough] | replay <file> | list | mutants <Cxx> | mutant <name>")
		os.Exit(2)
	}
	switch os.Args[1] {
	case "list":
		ids := make([]string, 0)
		for id := range rules.Properties {
			ids = append(ids, id)
		}
		sort.Strings(ids)
		for _, id := range ids {
			fmt.Println(id, "-", rules.Properties[id].Title)
		}
	case "check":
		fs := flag.NewFlagSet("check", flag.ExitOnError)
		tier := fs.String("tier", envOr("VERIF_TIER", "quick"), "quick|thorough")
		only := fs.String("only", "", "restrict output to one rule|construct key (replay)")
		if len(os.Args) < 3 {
			fmt.Fprintln(os.Stderr, "check needs a property id")
			os.Exit(2)
		}
		id := os.Args[2]
		fs.Parse(os.Args[3:])
		os.Exit(runCheck(id, *tier, *only))
	case "replay":
		if len(os.Args) < 3 {
			os.Exit(2)
		}
		b, err := os.ReadFile(os.Args[2])
		if err != nil {
			fmt.Println(err)
			os.Exit(2)
		}
		var f core.Finding
		if err := json.Unmarshal(b, &f); err != nil {
			fmt.Println(err)
			os.Exit(2)
		}
		os.Exit(runCheck(f.Property, "quick", f.Key()))
	case "norm":
		ctx, err := core.Load(core.RepoDirFromEnv(), "quick", nil)
		if err != nil {
			fmt.Println(err)
			os.Exit(2)
		}
		p := ctx.MustPkg(os.Args[2])
		fd := core.MustFuncDecl(p, os.Args[3])
		fmt.Println(ctx.Norm(p, fd))
	case "mutant":
		os.Exit(rules.RunMutant(os.Args[2:]))
	default:
		fmt.Fprintln(os.Stderr, "unknown command", os.Args[1])
		os.Exit(2)
	}
}

func envOr(k, d string) string {
	if v := os.Getenv(k); v != "" {
		return v
	}
	return d
}

func runCheck(id, tier, only string) (code int) {
	start := time.Now()
	prop, ok := rules.Properties[id]
	if !ok {
		fmt.Printf("property %s is not claimed by this checker (see MANIFEST.json not_applicable)\n", id)
		return 2
	}
	if tier != "quick" && tier != "thorough" {
		tier = "quick"
	}
	seed, _ := strconv.ParseInt(envOr("VERIF_SEED", "0"), 10, 64)
	rep := core.NewReport(id)
	repo := core.RepoDirFromEnv()
	extra := map[string]any{"repo": repo}
	func() {
		defer func() {
			if e := recover(); e != nil {
				if inf, ok := e.(core.Infra); ok {
					rep.Infra("anchor", string(inf))
				} else {
					rep.Infra("panic", fmt.Sprintf("%v\n%s", e, debug.Stack()))
				}
			}
		}()
		ctx, err := core.Load(repo, tier, nil)
		if err != nil {
			rep.Infra("load", err.Error())
			return
		}
		ctx.Seed = seed
		extra["packages_loaded"] = len(ctx.All)
		extra["root_packages"] = ctx.Patterns
		prop.Run(ctx, rep)
		if tier == "thorough" {
			if prop.Thorough != nil {
				prop.Thorough(ctx, rep, extra)
			}
			rules.SelfValidate(id, rep, extra)
		}
	}()
	if only != "" {
		var fs []core.Finding
		for _, f := range rep.Findings {
			if f.Key() == only {
				fs = append(fs, f)
			}
		}
		if len(fs) == 0 {
			fmt.Printf("replay: %s no longer reported on the current tree\n", only)
			return 0
		}
		for _, f := range fs {
			fmt.Printf("%s: [%s] %s: %s\n", f.Pos, f.Rule, f.Construct, f.Msg)
			for _, w := range f.Witness {
				fmt.Printf("    %s\n", w)
			}
		}
		fmt.Printf("VIOLATION property=%s replay=%s\n", id, filepath.Join(verifDir(), "replay"))
		return 1
	}
	return rep.Finish(verifDir(), tier, seed, start, prop.Explanation, prop.Assumptions, extra)
}
